//! Builds the graph of *real* crate operators described by a scenario, wired to harness peers.

use crate::{
    comps::{adapt, show_v, showk_v, tap, Probe, ProbeIterable, Puppet, PuppetDyn, PuppetHandle, Src, V},
    env::{Cfg, Env, PMode},
    nurse::MockNurse,
};
use callbag::{
    concat, filter, flatten, for_each, from_iter, interval, map, merge, scan, share, skip,
    take,
};
use serde_json::{json, Value};
use std::{collections::HashMap, sync::Arc, time::Duration};

pub enum Node {
    V(Src<V>),
    S(Src<Src<V>>),
}

pub struct Graph {
    pub env: Arc<Env>,
    pub root: Src<V>,
    pub probes: Vec<Option<Arc<Probe<V>>>>,
    /// sink kinds per k (1-based): "probe" | "foreach" | "foreach_raw"
    pub sink_kinds: Vec<String>,
    pub puppets: HashMap<usize, Arc<dyn PuppetDyn>>,
    pub nurse: Option<MockNurse>,
}

pub fn cfg_from(sc: &Value) -> Cfg {
    let c = &sc["cfg"];
    let u = |k: &str, d: u64| c.get(k).and_then(|x| x.as_u64()).unwrap_or(d) as usize;
    let b = |k: &str, d: bool| c.get(k).and_then(|x| x.as_bool()).unwrap_or(d);
    Cfg {
        max_data: u("maxData", 2),
        max_top: u("maxTop", 3),
        max_pull: u("maxPull", 2),
        sink_err: b("sinkErr", false),
        allow_fail: b("allowFail", false),
        c14: b("c14", false),
        burst: b("burst", true),
        reentrant: b("reentrant", false),
        passive: b("passive", false),
        max_react: u("maxReact", 1),
        cross: b("cross", false),
        nsinks: c.get("sinks").and_then(|x| x.as_array()).map(|a| a.len()).unwrap_or(1),
    }
}

pub fn fn_int(name: &str) -> Arc<dyn Fn(i64) -> i64 + Send + Sync> {
    match name {
        "inc" => Arc::new(|x| x + 1),
        "dbl" => Arc::new(|x| 2 * x),
        "half" => Arc::new(|x| x.div_euclid(2)),
        _ => panic!("harness: unknown map fn {name}"),
    }
}

pub fn pred_int(name: &str) -> Arc<dyn Fn(i64) -> bool + Send + Sync> {
    match name {
        "even" => Arc::new(|x| x.rem_euclid(2) == 0),
        "odd" => Arc::new(|x| x.rem_euclid(2) == 1),
        "gt1" => Arc::new(|x| x > 1),
        "gt11" => Arc::new(|x| x > 11),
        "all" => Arc::new(|_| true),
        "none" => Arc::new(|_| false),
        _ => panic!("harness: unknown predicate {name}"),
    }
}

pub fn red_int(name: &str) -> Arc<dyn Fn(i64, i64) -> i64 + Send + Sync> {
    match name {
        "add" => Arc::new(|a, x| a + x),
        "max" => Arc::new(|a, x| a.max(x)),
        "lin" => Arc::new(|a, x| 2 * a + x),
        _ => panic!("harness: unknown reducer {name}"),
    }
}

pub fn gen_list(name: &str, x: i64) -> Vec<i64> {
    match name {
        "rep" => vec![x, x],
        "upto" => (1..=x.clamp(0, 3)).collect(),
        "oddonly" => {
            if x.rem_euclid(2) == 1 {
                vec![x]
            } else {
                vec![]
            }
        },
        _ => panic!("harness: unknown list fn {name}"),
    }
}

pub fn build(sc: &Value, env: &Arc<Env>) -> Graph {
    let c = &sc["cfg"];
    let nodes = c["nodes"].as_array().expect("cfg.nodes");
    let mut built: HashMap<usize, Node> = HashMap::new();
    let mut puppets: HashMap<usize, Arc<dyn PuppetDyn>> = HashMap::new();
    let mut nurse: Option<MockNurse> = None;

    // Puppets: env ids follow the "pid" field (plain puppets first, outer puppets after them), so
    // that component names agree with the model.
    let mut pupnodes: Vec<&Value> =
        nodes.iter().filter(|n| n["kind"] == "puppet" || n["kind"] == "puppet_outer").collect();
    pupnodes.sort_by_key(|n| n["pid"].as_u64().unwrap());
    for n in &pupnodes {
        let id = n["id"].as_u64().unwrap() as usize;
        let pid = n["pid"].as_u64().unwrap() as usize;
        let mode = match n["mode"].as_str().unwrap_or("any") {
            "push" => PMode::Push,
            "pull" => PMode::Pull,
            _ => PMode::Any,
        };
        let late = n["late"].as_bool().unwrap_or(false);
        if n["kind"] == "puppet" {
            let p = Puppet::new(
                env,
                mode,
                late,
                Arc::new(move |k| V::I(10 * pid as i64 + k)),
                showk_v(),
            );
            assert_eq!(p.id, pid, "puppet pids must be 1..n");
            puppets.insert(pid, Arc::new(PuppetHandle(Arc::clone(&p))));
            built.insert(id, Node::V(p.source()));
        } else {
            let inner: Vec<usize> =
                n["inner"].as_array().unwrap().iter().map(|x| x.as_u64().unwrap() as usize).collect();
            let inner_srcs: Vec<Src<V>> = inner
                .iter()
                .map(|i| match built.get(i) {
                    Some(Node::V(s)) => Arc::clone(s),
                    _ => panic!("harness: inner puppets must be plain and have smaller pids"),
                })
                .collect();
            let inner_pids: Vec<i64> = inner
                .iter()
                .map(|i| {
                    nodes.iter().find(|m| m["id"].as_u64() == Some(*i as u64)).unwrap()["pid"]
                        .as_i64()
                        .unwrap()
                })
                .collect();
            let p: Arc<Puppet<Src<V>>> = Puppet::new(
                env,
                mode,
                late,
                Arc::new(move |k| Arc::clone(&inner_srcs[(k as usize - 1) % inner_srcs.len()])),
                Arc::new(move |k, _s: &Src<V>| json!(inner_pids[(k as usize - 1) % inner_pids.len()])),
            );
            assert_eq!(p.id, pid, "puppet pids must be 1..n");
            puppets.insert(pid, Arc::new(PuppetHandle(Arc::clone(&p))));
            built.insert(id, Node::S(p.source()));
        }
    }

    for n in nodes {
        let id = n["id"].as_u64().unwrap() as usize;
        let kind = n["kind"].as_str().unwrap();
        if kind == "puppet" || kind == "puppet_outer" {
            continue;
        }
        let ups: Vec<usize> = n
            .get("ups")
            .and_then(|x| x.as_array())
            .map(|a| a.iter().map(|x| x.as_u64().unwrap() as usize).collect())
            .unwrap_or_default();
        let upv = |built: &HashMap<usize, Node>, i: usize| -> Src<V> {
            match &built[&ups[i]] {
                Node::V(s) => Arc::clone(s),
                _ => panic!("harness: node {id}: upstream {i} must be a V source"),
            }
        };
        let node = match kind {
            "from_iter" => {
                let unbounded = n.get("unbounded").and_then(|x| x.as_bool()).unwrap_or(false);
                let items = if unbounded {
                    None
                } else {
                    Some(
                        n.get("items")
                            .and_then(|x| x.as_array())
                            .map(|a| a.iter().map(|x| x.as_i64().unwrap()).collect::<Vec<_>>())
                            .unwrap_or_default(),
                    )
                };
                let it = ProbeIterable {
                    env: Arc::clone(env),
                    id,
                    items,
                    limit: n.get("limit").and_then(|x| x.as_u64()).unwrap_or(12) as usize,
                    clones: Arc::new(std::sync::Mutex::new(0)),
                    clone_no: 0,
                };
                Node::V(Arc::new(from_iter(it)))
            },
            "interval" => {
                let period = n["period"].as_u64().unwrap_or(1);
                let ns = nurse.get_or_insert_with(|| MockNurse::new(env)).clone();
                let s: Src<usize> = Arc::new(interval(Duration::from_millis(period), ns));
                Node::V(adapt(s, Arc::new(|x: usize| V::I(x as i64))))
            },
            "map" => {
                let f = fn_int(n["f"].as_str().unwrap());
                let env2 = Arc::clone(env);
                let nm = format!("f{id}");
                Node::V(Arc::new(map(move |x: V| {
                    env2.event("fn", &nm, "", x.json());
                    V::I(f(x.int()))
                })(upv(&built, 0))))
            },
            "filter" => {
                let p = pred_int(n["p"].as_str().unwrap());
                let env2 = Arc::clone(env);
                let nm = format!("f{id}");
                Node::V(Arc::new(filter(move |x: &V| {
                    env2.event("fn", &nm, "", x.json());
                    p(x.int())
                })(upv(&built, 0))))
            },
            "scan" => {
                let r = red_int(n["r"].as_str().unwrap());
                let seed = n["seed"].as_i64().unwrap_or(0);
                let env2 = Arc::clone(env);
                let nm = format!("f{id}");
                Node::V(Arc::new(scan(
                    move |a: V, x: V| {
                        env2.event("fn", &nm, "", json!([a.json(), x.json()]));
                        V::I(r(a.int(), x.int()))
                    },
                    V::I(seed),
                )(upv(&built, 0))))
            },
            // (pipe! with two arguments: plain application)
            "take" => Node::V(Arc::new(callbag::pipe!(upv(&built, 0), take(n["n"].as_u64().unwrap() as usize)))),
            "skip" => Node::V(Arc::new(callbag::pipe!(upv(&built, 0), skip(n["n"].as_u64().unwrap() as usize),))),
            // n-ary operators are built with the crate's macros (what users write); other member counts
            // go through the function the macro expands to
            "merge" => {
                let v: Vec<Src<V>> = (0..ups.len()).map(|i| upv(&built, i)).collect();
                let s: callbag::Source<V> = match v.len() {
                    1 => callbag::merge!(Arc::clone(&v[0])),
                    2 => callbag::merge!(Arc::clone(&v[0]), Arc::clone(&v[1])),
                    3 => callbag::merge!(Arc::clone(&v[0]), Arc::clone(&v[1]), Arc::clone(&v[2]),),
                    _ => merge(v.into_boxed_slice()),
                };
                Node::V(Arc::new(s))
            },
            "concat" => {
                let v: Vec<Src<V>> = (0..ups.len()).map(|i| upv(&built, i)).collect();
                let s: callbag::Source<V> = match v.len() {
                    1 => callbag::concat!(Arc::clone(&v[0])),
                    2 => callbag::concat!(Arc::clone(&v[0]), Arc::clone(&v[1])),
                    3 => callbag::concat!(Arc::clone(&v[0]), Arc::clone(&v[1]), Arc::clone(&v[2]),),
                    _ => concat(v.into_boxed_slice()),
                };
                Node::V(Arc::new(s))
            },
            "combine" => match ups.len() {
                1 => Node::V(adapt(
                    Arc::new(callbag::combine!(upv(&built, 0))),
                    Arc::new(|(a,): (V,)| V::T(vec![a])),
                )),
                2 => Node::V(adapt(
                    Arc::new(callbag::combine!(upv(&built, 0), upv(&built, 1))),
                    Arc::new(|(a, b): (V, V)| V::T(vec![a, b])),
                )),
                3 => Node::V(adapt(
                    Arc::new(callbag::combine!(upv(&built, 0), upv(&built, 1), upv(&built, 2),)),
                    Arc::new(|(a, b, c): (V, V, V)| V::T(vec![a, b, c])),
                )),
                _ => panic!("harness: combine arity 1..3 only"),
            },
            "flatten" => match &built[&ups[0]] {
                Node::S(s) => Node::V(Arc::new(flatten(Arc::clone(s)))),
                _ => panic!("harness: flatten needs an outer source of sources"),
            },
            "flatmap" => {
                let g = n["g"].as_str().unwrap().to_string();
                let env2 = Arc::clone(env);
                let nm = format!("f{id}");
                let m: Src<Src<V>> = Arc::new(map(move |x: V| {
                    env2.event("fn", &nm, "", x.json());
                    let l: Vec<V> = gen_list(&g, x.int()).into_iter().map(V::I).collect();
                    let s: Src<V> = Arc::new(from_iter(l));
                    s
                })(upv(&built, 0)));
                Node::V(Arc::new(flatten(m)))
            },
            "share" => Node::V(Arc::new(share(upv(&built, 0)))),
            _ => panic!("harness: unknown node kind {kind}"),
        };
        built.insert(id, node);
    }

    let root_id = c["root"].as_u64().unwrap() as usize;
    let root = match &built[&root_id] {
        Node::V(s) => Arc::clone(s),
        _ => panic!("harness: root must be a V source"),
    };
    let sinks = c["sinks"].as_array().cloned().unwrap_or_else(|| vec![json!("probe")]);
    let mut probes = vec![];
    let mut sink_kinds = vec![];
    for (i, s) in sinks.iter().enumerate() {
        let kind = s.as_str().unwrap_or("probe").to_string();
        if kind == "probe" {
            probes.push(Some(Probe::new(env, i + 1, show_v())));
        } else {
            probes.push(None);
        }
        sink_kinds.push(kind);
    }
    {
        let pups = puppets.clone();
        let k: crate::env::Kicker = Arc::new(move |ix, pup, act| pups[&pup].top(ix, act));
        *env.kicker.lock().unwrap_or_else(|e| e.into_inner()) = Some(k);
    }
    Graph { env: Arc::clone(env), root, probes, sink_kinds, puppets, nurse }
}

impl Graph {
    /// attach sink k (1-based) to the root
    pub fn attach(&self, k: usize) {
        self.env.with_sink(k, |s| s.attached = true);
        match self.sink_kinds[k - 1].as_str() {
            "probe" => {
                let p = self.probes[k - 1].as_ref().unwrap();
                (self.root)(callbag::Message::Handshake(p.sink()));
            },
            "foreach" => {
                let env = Arc::clone(&self.env);
                let nm = format!("F{k}");
                // pipe! with three arguments (the recursive arm): source, tap, for_each
                let env_t = Arc::clone(&self.env);
                callbag::pipe!(
                    Arc::clone(&self.root),
                    move |s: Src<V>| tap(&env_t, k, s),
                    for_each(move |x: V| env.event("fn", &nm, "", x.json())),
                );
            },
            "foreach_raw" => {
                let env = Arc::clone(&self.env);
                let nm = format!("F{k}");
                for_each(move |x: V| env.event("fn", &nm, "", x.json()))(Arc::clone(&self.root));
            },
            other => panic!("harness: unknown sink kind {other}"),
        }
    }
}
